#!/usr/bin/env python3
"""Regenerate /verif/MANIFEST.json from the table below (properties.jsonl is never touched)."""
import json, subprocess
props = [json.loads(l) for l in open('/verif/properties.jsonl')]
DST = "deterministic simulation with fault injection: real shuttle crates driven by a controlling Scheduler (SimSched), seeded program/fault generation, "
claimed = {
 "C01": ("exploration", DST + "replay equality oracle", "seeded search over (program, scheduler, seed); every recorded schedule must replay to the identical decision/draw/event trace and ending through the printed string, and the nondeterminism checker must accept the body", "same-process replay; events logged by the interpreter are the observable behaviour"),
 "C02": ("exploration", DST + "outcome coverage: model outcome enumeration vs scripted exploration of the runtime's choice tree", "seeded tiny programs; every outcome the runtime produces must be allowed by the reference model, and when the runtime's choice tree for the program was exhausted by scripted schedules every outcome the model requires must have been produced; unreachable outcomes are keyed by the operation kind lacking a choice point", "existential property: only provably unreachable outcomes alarm; programs beyond the leaf budget are inconclusive; known findings F2 (mpsc drop) and F18 (barrier arrival) keyed by call-site kind"),
 "C03": ("exploration", DST + "lockstep powerset reference model (offered sets, results, verdict)", "seeded search over programs x schedules; at every decision the runtime's offered set must equal the reference model's enabled set, and the final verdict (normal end / deadlock with exactly the unfinished tasks) must be explainable by the model", "reference models in harness/src/model.rs written from std documentation; small programs (<= 4 threads)"),
 "C04": ("exploration", DST + "lockstep reference model + holder monitors + differential against std::sync::atomic", "locks: lockstep model and interpreter-level holder counters; poisoning after a caught panic; atomics: every operation result compared with std::sync::atomic replayed in the run's total order, all integer types and bool", "SC only; known finding F4 (poisoned lock: semaphore stays closed) pinned by witnesses"),
 "C05": ("exploration", DST + "lockstep powerset reference model", "condvar/barrier/once/park programs; no lost and no invented wake-up = offered set equals the model's enabled set at every decision; leader and initialiser monitors", "Condvar never wakes spuriously (documented Shuttle choice); park may"),
 "C06": ("exploration", DST + "lockstep reference model + exactly-once/order/capacity history monitors", "channel programs with endpoint drops as faults; model-independent monitors over unique payloads plus lockstep model for blocking and try results", "single receiver per channel"),
 "C07": ("exploration", DST + "lockstep reference model + lifecycle/TLS log monitors", "spawn/join/scope/thread-local programs; join-after-destructors, destructor order, exactly-once, no resurrection, ids unique", "scope waits for closures not TLS destructors (as std)"),
 "C08": ("exploration", DST + "scheduler-contract monitor on every call + stop faults + wrapper transparency", "argument-shape monitor at every decision of every run, yield flag exactness, offered set = model enabled set, scheduler None / run end faults, recorders inside and outside the transparent wrappers", "portfolio stop wrapper checked from inside only"),
 "C12": ("exploration", "deterministic simulation with fault injection: seeded histories of differently configured Shuttle runs executed in one child process (process-global hook / thread-local marker as the shared state), stderr sections and persistence directories observed from outside, emitted schedules replayed in fresh child processes", "histories of 1-4 runs x (failure kind x persistence mode x scheduler x thread placement); payload identity, exactly the configured artefact (fresh file names, pre-populated directories), nothing when disabled, replay of every emitted schedule reproduces payload and event trace, corrupted artefact rejected; portfolio verdict vs members alone", "PortfolioRunner uses real OS threads: verdict only; known finding F20 (two schedules when a guard is dropped during unwinding)"),
 "C13": ("exploration", DST + "step-profile oracle against the unbounded execution", "each program is run unbounded, then with FailAfter/ContinueAfter(n) around its length and 1-3 executions: steps since reset never exceed n, fewer-than-n executions identical, more-than-n executions fail/abandon as configured, run count exact; iteration budgets 0..20 on every built-in scheduler", "max_time only at 0 and large (real clock not owned); known finding F8 (draws unchecked) keyed separately"),
 "C14": ("exploration", DST + "per-iteration equality with stand-alone re-execution + init/destroy accounting", "multi-iteration runs whose predecessors complete, are stopped by the scheduler at a drawn decision, or are cut by ContinueAfter; every iteration must equal the fresh stand-alone execution of its own schedule (snapshot of clock/schedule length/name/labels, decisions, draws, events) and destroy everything it initialised (TLS, lazy statics, stack values)", "stand-alone runs in the same process with a fresh Runner and the harness's own FollowSched; F17 pinned in a child process"),
 "C15": ("exploration", DST + "happens-before derivation from the event log vs sampled vector clocks", "clock() sampled after every operation; edges derived by API rules: every edge must be reflected by clock dominance, per-task monotonicity, exactness (no spurious order, also via VectorClock::partial_cmp) on the restricted family whose edge set is complete, and target-clock replay must keep the causal past", "exactness only on the restricted family (no try-ops/condvar/barrier/once/bounded channels); rendezvous send compared as of publication; F19 keyed separately"),
 "C16": ("fault_enumeration", "deterministic simulation with fault injection (stored-artefact corruption sweep over recorded schedules) + seeded boundary-biased input generation", "round trip in three layouts; every truncation point, version classes, non-hex, over-long declared length must be rejected by return value", "decoder in-process under catch_unwind; aborts attributed by the coordinator"),
 "C18": ("exploration", DST + "lockstep reference model of a counting semaphore with FIFO/any-waiter modes + available-permits observation after every operation", "threads acquire/try/release/close/cancel (Acquire polled once or twice then dropped) on fair and unfair BatchSemaphores; results, available permits after every operation (conservation), offered sets, verdict against the model", "acquisitions issued from threads; two-poll cancellation on unfair semaphores excluded (known finding F9, pinned witness)"),
}
checks = []
for pid,(cat,tech,text,note) in sorted(claimed.items()):
    checks.append({
      "property_id": pid,
      "quick_cmd": f"./check {pid} quick",
      "thorough_cmd": f"./check {pid} thorough",
      "evidence_file": f"/verif/evidence/{pid}.json",
      "replay_cmd_template": f"./check {pid} --replay {{path}}",
      "engine": "vcheck",
      "level_claimed": {"category": cat, "text": text, "design_ref": f"DESIGN.md §5 {pid}"},
      "level_note": note,
      "technique": tech,
    })
fixes = subprocess.run(["git","-C","/repo","log","--format=%h %s","6df9fe8..HEAD"],capture_output=True,text=True).stdout.strip().splitlines()
m = {
 "version": 1,
 "setup_cmd": "cd /verif/harness && CARGO_NET_OFFLINE=true cargo build --release --offline",
 "hooks": {"guard": "none (no hook commits)", "enable": "no hooks: the harness uses only public APIs of the crates in /repo (Scheduler trait, Task getters, CurrentSchedule, serialization); the harness profile enables debug-assertions so that shuttle's own debug_assert!s act as monitors", "baseline_off_cmd": "cd /repo && cargo nextest run --workspace --no-fail-fast --tool-config-file pb:/w/lib/nextest.toml --profile pb --test-threads 8 --offline", "source_commits": [], "add_only": True},
 "engines": [{"name": "vcheck", "path": "/verif/harness", "serves_properties": sorted(claimed), "kind_free_text": "deterministic simulation: real shuttle crates driven by a controlling Scheduler implementation (SimSched), seeded program/fault generators, reference models, worker processes"}],
 "checks": checks,
 "not_applicable": [{"property_id": p["id"], "reason": "check under construction in this round; not yet claimed"} for p in props if p["id"] not in claimed],
 "notes": "fix: commits in /repo (unguarded, minimal): " + "; ".join(fixes) + ". Known findings: /verif/known_findings.json. See DESIGN.md.",
}
json.dump(m, open('/verif/MANIFEST.json','w'), indent=1)
print("claimed:", sorted(claimed))
