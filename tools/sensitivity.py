#!/usr/bin/env python3
"""Sensitivity battery: apply deliberate property-breaking edits (one at a time) to a scratch
worktree of /repo, run the relevant quick checks of a scratch copy of /verif against it, record
whether each mutant is detected and by which violation key. Nothing in /repo or /verif is touched
except the result files /verif/SENSITIVITY.json / SENSITIVITY.md.

usage: sensitivity.py [scratch_dir] [mutant-id ...]
"""
import json, os, subprocess, sys, time, re

SCR = sys.argv[1] if len(sys.argv) > 1 else "/tmp/sens"
ONLY = set(sys.argv[2:])
# several batteries may run side by side in different scratch dirs: each writes its own JSON
# (SENS_OUT) and `sensitivity.py --merge a.json b.json ...` folds them into SENSITIVITY.json / .md
OUT = os.environ.get("SENS_OUT", "/verif/SENSITIVITY.json")

# (id, property/checks, file, old, new, description)
M = [
 ("M01", ["C01"], "shuttle-engine/src/scheduler/data/random.rs", "        self.rng = Pcg64Mcg::seed_from_u64(next_seed);\n", "", "RandomDataSource::reinitialize does not re-seed its rng"),
 ("M02", ["C01"], "shuttle-engine/src/runtime/execution.rs", "            CurrentSchedule::push_random();\n", "", "random draws are not recorded in the schedule"),
 ("M03", ["C02", "C05"], "shuttle-std/src/sync/condvar.rs", "    pub fn notify_all(&self) {\n        thread::switch();\n", "    pub fn notify_all(&self) {\n", "no scheduling point before Condvar::notify_all"),
 ("M04", ["C02"], "shuttle-std/src/thread.rs", "    pub fn unpark(&self) {\n        thread::switch();\n", "    pub fn unpark(&self) {\n", "no scheduling point before Thread::unpark"),
 ("M05", ["C03", "C05"], "shuttle-engine/src/runtime/execution.rs", "            any_runnable |= is_runnable;", "            any_runnable |= is_runnable || task.can_spuriously_wakeup();", "spuriously wakeable tasks count as runnable for the deadlock verdict"),
 ("M06", ["C03"], "shuttle-engine/src/runtime/execution.rs", "                                    .filter(|t| !t.finished())\n                                    .map(|t| t.format_for_deadlock())", "                                    .filter(|t| t.blocked())\n                                    .map(|t| t.format_for_deadlock())", "deadlock report lists only blocked tasks"),
 ("M07", ["C04"], "shuttle-std/src/sync/atomic/int.rs", "|old| Some(old.min(val))", "|old| Some(old.max(val))", "integer fetch_min computes max"),
 ("M08", ["C04"], "shuttle-std/src/sync/atomic/bool.rs", "|old| Some(!(old & val))", "|old| Some(!(old | val))", "AtomicBool::fetch_nand computes nor"),
 ("M09", ["C04", "C18"], "shuttle-engine/src/future/batch_semaphore.rs", "        if res.is_ok() {\n            self.reblock_if_unfair();\n        }", "", "successful try_acquire does not re-block unfair waiters that no longer fit"),
 ("M10", ["C05", "C02"], "shuttle-std/src/sync/condvar.rs", "            ExecutionState::with(|s| s.get_mut(*tid).unblock());\n        }\n        state.next_epoch += 1;", "            ExecutionState::with(|s| s.get_mut(*tid).unblock());\n            break;\n        }\n        state.next_epoch += 1;", "notify_one only ever considers the first waiter"),
 ("M11", ["C05"], "shuttle-engine/src/runtime/task/mod.rs", "        if self.park_state.token_available {\n            self.park_state.token_available = false;\n            false", "        if self.park_state.token_available {\n            false", "park does not consume the unpark token"),
 ("M12", ["C05"], "shuttle-std/src/sync/barrier.rs", "            state.epoch += 1;\n", "", "barrier epoch is not bumped when a generation is released"),
 ("M13", ["C06"], "shuttle-std/src/sync/mpsc.rs", "state.messages.len() >= std::cmp::max(bound, 1)", "state.messages.len() > std::cmp::max(bound, 1)", "bounded channel accepts one message more than its capacity"),
 ("M14", ["C06"], "shuttle-std/src/sync/mpsc.rs", "            if state.messages.is_empty() && state.known_senders == 0 {\n                state.waiting_receivers.retain(|t| *t != me);\n                return Err(TryRecvError::Disconnected);\n            }\n\n            let head = state.waiting_receivers.remove(0);", "            let head = state.waiting_receivers.remove(0);", "blocked receiver does not re-check disconnection after being woken"),
 ("M15", ["C07"], "shuttle-engine/src/runtime/storage.rs", "let key = self.order.pop_front()?;", "let key = self.order.pop_back()?;", "thread-local destructors run in reverse initialisation order"),
 ("M16", ["C07"], "shuttle-engine/src/thread_support.rs", "    while let Some(local) = ExecutionState::with(|state| state.current_mut().pop_local()) {\n        tracing::trace!(\"dropping thread local {:p}\", local);\n        drop(local);\n    }\n\n    tracing::trace!(\"done dropping thread locals\");\n\n    *result.lock().unwrap() = Some(Ok(ret));\n    ExecutionState::with(|state| {\n        if let Some(waiter) = state.current_mut().take_waiter() {\n            state.get_mut(waiter).unblock();\n        }\n    });", "    *result.lock().unwrap() = Some(Ok(ret));\n    ExecutionState::with(|state| {\n        if let Some(waiter) = state.current_mut().take_waiter() {\n            state.get_mut(waiter).unblock();\n        }\n    });\n    while let Some(local) = ExecutionState::with(|state| state.current_mut().pop_local()) {\n        drop(local);\n    }", "join result published before the thread-local destructors run"),
 ("M17", ["C08"], "shuttle-engine/src/runtime/execution.rs", "let is_yielding = std::mem::replace(&mut self.has_yielded, false);", "let is_yielding = self.has_yielded;", "the yielding flag is never reset"),
 ("M18", ["C13"], "shuttle-engine/src/runtime/execution.rs", "CurrentSchedule::len() - self.steps_reset_at >= max_steps", "CurrentSchedule::len() - self.steps_reset_at > max_steps", "step bound allows one step too many"),
 ("M19", ["C13"], "shuttle-engine/src/current.rs", "ExecutionState::with(|s| s.steps_reset_at = CurrentSchedule::len());", "ExecutionState::with(|s| s.steps_reset_at = CurrentSchedule::len() * 0);", "reset_step_count does not reset"),
 ("M20", ["C14"], "shuttle-engine/src/runtime/execution.rs", "        LABELS.with(|cell| cell.borrow_mut().clear());\n", "", "labels are not cleared between executions"),
 ("M21", ["C15"], "shuttle-std/src/thread.rs", "            let clock = target.clock.clone();\n            state.update_clock(&clock);", "            let _clock = target.clock.clone();", "join does not inherit the child's clock"),
 ("M22", ["C15"], "shuttle-engine/src/future/batch_semaphore.rs", "            state.permits_available.release(num_permits, clock.clone());", "            let _ = clock;\n            state.permits_available.release(num_permits, VectorClock::new());", "released permits carry an empty clock (unlock -> lock edge lost)"),
 ("M23", ["C15"], "shuttle-engine/src/runtime/task/clock.rs", "            let mut ord = n1.cmp(&n2);", "            let mut ord = Ordering::Equal;", "VectorClock::partial_cmp ignores the length difference"),
 ("M24", ["C16"], "shuttle-engine/src/scheduler/serialization.rs", "    let task_id_bits = task_id_bits.max(1);\n", "", "task id width may be 0 in the serialised form"),
 ("M25", ["C17"], "shuttle-engine/src/runtime/task/mod.rs", "        if !was_woken {\n            self.sleep();\n        }", "        let _ = was_woken;\n        self.sleep();", "sleep_unless_woken ignores a wake that arrived during the poll"),
 ("M26", ["C17"], "shuttle-engine/src/runtime/task/mod.rs", "        if self.finished() {\n            return;\n        }\n        self.wake();", "        if self.finished() {\n            return;\n        }", "abort sets the flag but does not wake the task"),
 ("M27", ["C18"], "shuttle-engine/src/future/batch_semaphore.rs", "                    state.unblock_waiters_from_front();\n                }\n            }\n            Fairness::Unfair => {}", "                }\n            }\n            Fairness::Unfair => {}", "cancelling the head waiter of a fair semaphore does not grant the next one"),
 ("M28", ["C18"], "shuttle-engine/src/future/batch_semaphore.rs", "            self.semaphore.release(self.waiter.num_permits);\n        }\n    }\n}", "            let _ = self.waiter.num_permits;\n        }\n    }\n}", "an Acquire dropped after being granted does not give its permits back"),
 ("M29", ["C12"], "shuttle-engine/src/runtime/failure.rs", "        FailurePersistence::None => {}\n", "        FailurePersistence::None => {\n            let serialized_schedule = serialize_schedule(&CurrentSchedule::get_schedule());\n            eprintln!(\"failing schedule:\\n\\\"\\n{serialized_schedule}\\n\\\"\\npass that string to `shuttle::replay` to replay the failure\");\n        }\n", "a schedule is printed although persistence is disabled"),
 ("M30", ["C08", "C03"], "shuttle-engine/src/runtime/execution.rs", "            if is_runnable {\n                all_runnable_detached &= task.detached;\n                self.runnable_tasks.push(task as *const Task);", "            if is_runnable && task_id.0 != 2 {\n                all_runnable_detached &= task.detached;\n                self.runnable_tasks.push(task as *const Task);", "task 2 is never offered to the scheduler"),
 ("M31", ["C04", "C03"], "shuttle-std/src/sync/rwlock.rs", "        if reentrant_read {", "        if reentrant_read && false {", "re-entrant try_read takes a permit before failing (the defect repaired by 21dcfba)"),
 ("M32", ["C06"], "shuttle-std/src/sync/mpsc.rs", "        let item = state.messages.remove(0);", "        let n = state.messages.len();\n        let item = state.messages.remove(n - 1);", "receive takes the newest message (LIFO)"),
 ("M33", ["C14", "C05"], "shuttle-std/src/sync/once.rs", "        StorageKey(once.id(), 0x2)", "        StorageKey(1, 0x2)", "all Once cells share one state slot"),
 ("M34", ["C01"], "shuttle-schedulers/src/replay.rs", "            ScheduleStep::Random => {\n                self.steps += 1;\n                self.data_source.next_u64()\n            }", "            ScheduleStep::Random => {\n                self.steps += 1;\n                self.data_source.next_u64() ^ 1\n            }", "replayed random draws differ in the lowest bit"),
 ("M35", ["C09"], "shuttle-schedulers/src/dfs.rs", "self.levels.push((next, next_idx == runnable.len() - 1));", "self.levels.push((next, next_idx + 2 >= runnable.len()));", "DFS marks the second-to-last sibling as the last one (last child of a 3-way choice never explored)"),
 ("M36", ["C09"], "shuttle-schedulers/src/dfs.rs", "self.max_iterations.map(|mi| self.iterations >= mi)", "self.max_iterations.map(|mi| self.iterations > mi)", "DFS runs one iteration more than max_iterations"),
 ("M37", ["C10"], "shuttle-schedulers/src/random.rs", "        Some(runnable.choose(&mut self.rng).unwrap().id())", "        Some(runnable[(self.rng.next_u64() % 4) as usize % runnable.len()].id())", "random scheduler picks index (r mod 4) mod n: biased when n = 3"),
 ("M38", ["C10"], "shuttle-schedulers/src/random.rs", "    pub fn new_from_seed(seed: u64, max_iterations: usize) -> Self {\n        let seed = seed_from_env(seed);\n", "    pub fn new_from_seed(seed: u64, max_iterations: usize) -> Self {\n        let _ = seed_from_env(seed);\n", "RandomScheduler ignores SHUTTLE_RANDOM_SEED"),
 ("M39", ["C11"], "shuttle-schedulers/src/pct.rs", "if self.change_points.contains(&self.steps) || is_yielding {", "if is_yielding {", "PCT never lowers a priority at a change point"),
 ("M40", ["C11"], "shuttle-schedulers/src/pct.rs", "let num_points = std::cmp::min(self.max_depth - 1, self.max_steps - 1);", "let num_points = std::cmp::min(self.max_depth, self.max_steps - 1);", "PCT uses depth change points instead of depth - 1"),
 ("M41", ["C20"], "wrappers/parking_lot/parking_lot_impl/src/raw_rwlock.rs", "            // Roll back the upgradable slot so we don't leak it.\n            self.upgradable_sem.release(1);\n", "", "parking_lot try_lock_upgradable leaks the upgradable slot when the shared permit is unavailable"),
 ("M42", ["C20"], "wrappers/parking_lot/parking_lot_impl/src/raw_rwlock.rs", "        trace!(\"downgrading parking_lot rwlock {:p} (exclusive -> shared)\", self);\n        self.sem.release(MAX_READERS - 1);", "        trace!(\"downgrading parking_lot rwlock {:p} (exclusive -> shared)\", self);\n        self.sem.release(MAX_READERS - 2);", "parking_lot downgrade keeps two permits (a later writer can never enter)"),
 ("M43", ["C20"], "wrappers/collections/deterministic_collections/src/lib.rs", "        Self(StdHashSet::with_capacity_and_hasher(\n            capacity,\n            DETERMINISTIC_RANDOM_STATE,", "        Self(StdHashSet::with_capacity_and_hasher(\n            capacity,\n            RandomState::new(),", "deterministic HashSet::with_capacity uses a fresh RandomState"),
 ("M44", ["C19"], "wrappers/tokio/impls/tokio/inner/src/sync/rwlock.rs", "    pub fn downgrade(self) -> RwLockReadGuard<'a, T> {\n        let RwLockWriteGuard { sem, data, .. } = self;\n        let to_release = self.permits_acquired - 1;", "    pub fn downgrade(self) -> RwLockReadGuard<'a, T> {\n        let RwLockWriteGuard { sem, data, .. } = self;\n        let to_release = self.permits_acquired;", "tokio RwLock downgrade releases every permit (writers can enter beside the downgraded reader)"),
 ("M45", ["C19"], "wrappers/tokio/impls/tokio/inner/src/sync/watch.rs", "        let inner = self.shared.value.blocking_read();\n        self.version = self.shared.state.load().version();\n        Ref { inner }", "        let inner = self.shared.value.blocking_read();\n        Ref { inner }", "watch borrow_and_update does not mark the value seen"),
 ("M46", ["C19"], "wrappers/tokio/impls/tokio/inner/src/sync/watch.rs", "            drop(lock);\n        }\n        self.shared.notify_rx.notify_waiters();\n        true", "            drop(lock);\n        }\n        true", "watch send does not notify waiting receivers"),
 ("M47", ["C19"], "wrappers/tokio/impls/tokio/inner/src/sync/oneshot.rs", "            Err(_) => Err(TryRecvError::Closed),", "            Err(_) => Err(TryRecvError::Empty),", "oneshot try_recv reports Empty on a closed channel"),
]

ALL_OCCURRENCES = {"M20"}

NOTES = {
 "M12": "equivalent mutant: the releasing arrival removes its own leader token in the same step in which it inserts it, so the epoch value is never observable",
 "M23": "equivalent mutant for everything the property speaks about: partial_cmp only changes from Less/Greater to Equal-prefix results for clocks of different length with equal common prefix, which the `<=` comparisons used by the runtime treat identically",
}

def sh(cmd, **kw):
    return subprocess.run(cmd, shell=True, capture_output=True, text=True, **kw)

def main():
    if not os.path.exists(SCR):
        r = sh(f"/verif/tools/mkscratch.sh {SCR}")
        if r.returncode != 0:
            print(r.stdout, r.stderr); sys.exit(2)
    else:
        # refresh the verif copy, keep the build directory
        sh(f"rsync -a --exclude 'harness/target' --exclude '.git' --exclude 'replays' --exclude 'seeded' /verif/ {SCR}/verif/")
        sh(f"sed -i 's#path = \"/repo/#path = \"{SCR}/repo/#g' {SCR}/verif/harness/Cargo.toml")
        sh(f"git -C {SCR}/repo checkout -q --detach $(git -C /repo rev-parse HEAD)")
    repo = f"{SCR}/repo"
    results = []
    try:
        old = json.load(open(OUT))
    except Exception:
        old = []
    keep = {r["id"]: r for r in old}
    for (mid, checks, path, a, b, desc) in M:
        if ONLY and mid not in ONLY:
            continue
        sh(f"git -C {repo} checkout -q -- .")
        p = os.path.join(repo, path)
        src = open(p).read()
        if src.count(a) < 1:
            keep[mid] = {"id": mid, "desc": desc, "file": path, "status": "patch-does-not-apply"}
            print(mid, "patch does not apply"); continue
        open(p, "w").write(src.replace(a, b) if mid in ALL_OCCURRENCES else src.replace(a, b, 1))
        t0 = time.time()
        rec = {"id": mid, "desc": desc, "file": path, "checks": {}, "status": "ok"}
        for c in checks:
            r = sh(f"cd {SCR}/verif && VERIF_WALL_CAP=300 ./check {c} quick", timeout=1500)
            keys = sorted(set(re.findall(r"^violation: (\S+)", r.stdout, re.M)))
            if r.returncode == 2:
                rec["status"] = "does-not-compile-or-harness-error"
                rec["checks"][c] = {"exit": 2, "stderr": r.stderr[-400:]}
                break
            rec["checks"][c] = {"exit": r.returncode, "keys": keys[:6]}
        rec["wall_s"] = round(time.time() - t0, 1)
        rec["detected"] = any(v.get("exit") == 1 for v in rec["checks"].values())
        keep[mid] = rec
        print(mid, "detected" if rec["detected"] else "MISSED", rec["checks"], flush=True)
        json.dump(sorted(keep.values(), key=lambda r: r["id"]), open(OUT, "w"), indent=1)
    json.dump(sorted(keep.values(), key=lambda r: r["id"]), open(OUT, "w"), indent=1)
    sh(f"git -C {repo} checkout -q -- .")
    if OUT == "/verif/SENSITIVITY.json":
        write_md(keep)
    print("done")


def write_md(keep):
    rows = sorted(keep.values(), key=lambda r: r["id"])
    with open("/verif/SENSITIVITY.md", "w") as f:
        f.write("# Sensitivity runs (deliberate property-breaking edits in a scratch worktree)\n\n")
        f.write("Produced by tools/sensitivity.py; every edit still compiles. `detected` = some listed quick check exits 1.\n\n")
        f.write("| id | edit | file | check: exit / first keys | detected |\n|---|---|---|---|---|\n")
        for r in rows:
            cs = "; ".join(f"{c}: {v.get('exit')} {', '.join(v.get('keys', [])[:2])}" for c, v in r.get("checks", {}).items())
            det = r.get('detected')
            if not det and r['id'] in NOTES:
                det = "no — " + NOTES[r['id']]
            f.write(f"| {r['id']} | {r['desc']} | {r['file']} | {cs or r.get('status')} | {det} |\n")


if len(sys.argv) > 1 and sys.argv[1] == "--merge":
    try:
        keep = {r["id"]: r for r in json.load(open("/verif/SENSITIVITY.json"))}
    except Exception:
        keep = {}
    for fn in sys.argv[2:]:
        for r in json.load(open(fn)):
            keep[r["id"]] = r
    json.dump(sorted(keep.values(), key=lambda r: r["id"]), open("/verif/SENSITIVITY.json", "w"), indent=1)
    write_md(keep)
    print("merged", len(keep))
else:
    main()
