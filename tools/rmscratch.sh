#!/bin/bash
set -u
D="$(realpath -m "$1")"
git -C /repo worktree remove --force "$D/repo" 2>/dev/null
rm -rf "$D"
git -C /repo worktree prune
