#!/bin/bash
# Determinism self-check of the machinery: every listed check is run at several worker counts and
# twice at the same count; the evidence (evaluations, distinct cases, every counter and probe,
# violations) must be identical — results must not depend on worker count, arrival order or
# process boundaries. Known findings are compared by key, not by count: F13b/F21 (C20) ARE a dependence on
# std's per-process random hash keys, which no seam owns, so how often they show varies. Usage: selfcheck.sh [check ids...]   (default: a representative subset)
cd /verif || exit 2
CHECKS="${@:-C01 C03 C05 C13 C17 C18}"
FAIL=0
for c in $CHECKS; do
  ref=""
  for w in 16 16 5 2; do
    VERIF_WORKERS=$w VERIF_WALL_CAP=100000 ./check $c quick > /tmp/selfcheck.$c.$w.out 2>&1
    sig=$(python3 - "$c" <<'PY'
import json,sys
e=json.load(open('/verif/evidence/%s.json'%sys.argv[1]))
c=e['coverage']
print(json.dumps([c['evaluations'],c['distinct_nontrivial'],c['counters_and_probes'],c['simulated_time_decisions'],e['violations'],sorted(c['known_findings_hit'])],sort_keys=True))
PY
)
    if [ -z "$ref" ]; then ref="$sig"; elif [ "$sig" != "$ref" ]; then echo "NONDETERMINISTIC: $c differs at workers=$w"; echo "$ref" | head -c 400; echo; echo "$sig" | head -c 400; echo; FAIL=1; fi
  done
  echo "$c: identical evidence at worker counts 16,16,5,2"
done
exit $FAIL
