#!/usr/bin/env python3
"""Build /verif/seeded/INDEX.md from the meta.json files written by confirm_seeded.py."""
import json, glob, os
rows = []
for f in sorted(glob.glob('/verif/seeded/*/meta.json')):
    m = json.load(open(f))
    d = os.path.basename(os.path.dirname(f))
    readme = os.path.join(os.path.dirname(f), 'README.agent.md')
    title = ''
    if os.path.exists(readme):
        for l in open(readme):
            if l.startswith('#'):
                title = l.strip('# \n'); break
    cs = m.get('checks_against_change', {})
    rows.append((d, m.get('property'), title[:110], m.get('confirmed'), ', '.join(m.get('detected_by', [])) or '—', '; '.join(f"{c}: {', '.join(v['keys'][:2])}" for c, v in cs.items() if v['exit'] == 1)[:200]))
with open('/verif/seeded/INDEX.md', 'w') as f:
    f.write("# Seeded changes (written by independent sub-agents from the property text alone)\n\n")
    f.write("Each directory holds `patch.diff`, the agent's demonstration `demo.rs`, its `README.agent.md` and `meta.json` (what was run to confirm it: demo passes on the unchanged tree, fails with the change; which quick checks exit 1 against it).\n\n")
    f.write("| change | property | what | confirmed | detected by | violation keys |\n|---|---|---|---|---|---|\n")
    for r in rows:
        f.write("| " + " | ".join(str(x) for x in r) + " |\n")
    n = len(rows); det = sum(1 for r in rows if r[4] != '—'); conf = sum(1 for r in rows if r[3])
    f.write(f"\n{conf} of {n} confirmed; {det} detected by at least one quick check.\n")
print(open('/verif/seeded/INDEX.md').read()[-600:])
